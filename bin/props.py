"""Per-property configuration: correspondence footprints, the tags that make a step relevant,
verdict and evidence."""
import os, json, time, sys, re
from common import *

BLOCKS = {"BLOCK", "FBLOCK"}
# footprint: list of (projection prefix, set of op kinds or None = any)
PROPS = {
 "C01": dict(fp=[("bal.escrow", None), ("vqueue", None), ("auction.status", None), ("bid.terms", None), ("module_invariants", None)],
             tags=["settle_batch", "settle_fixed", "cancel_ok", "donation", "release", "mod_ok", "bid_fixed_ok", "bid_worth_ok", "bid_many_ok"]),
 "C02": dict(fp=[("transfers", None), ("bal.", None)],
             tags=["settle_batch", "settle_fixed", "release", "finish_vesting", "cancel_ok", "create_fixed_ok", "create_batch_ok", "bid_fixed_ok", "bid_worth_ok", "bid_many_ok", "mod_ok"]),
 "C03": dict(fp=[("transfers", BLOCKS), ("auction.matched_price", None), ("bal.user", BLOCKS), ("result", BLOCKS)],
             tags=["settle_batch_2prices", "settle_batch_3prices", "settle_batch_nothing_sold", "settle_batch_2bids"]),
 "C04": dict(fp=[("transfers", BLOCKS | {"BID"}), ("bal.user", BLOCKS | {"BID"}), ("auction.remaining", {"BID"})],
             tags=["settle_batch_sold", "bid_fixed_ok"]),
 "C05": dict(fp=[("transfers", BLOCKS), ("allowed", None), ("result", {"BID"}), ("bal.user", BLOCKS)],
             tags=["settle_batch_sold", "settle_fixed_2bids", "bid_fixed_ok", "bid_fixed_rej", "apiupd_ok"]),
 "C06": dict(fp=[("result", {"BID"}), ("auction.remaining", None), ("bid.terms", None)],
             tags=["bid_fixed_ok", "bid_fixed_rej", "settle_fixed_2bids"]),
 "C07": dict(fp=[("result", BLOCKS)],
             tags=["block_blockok", "fault_fired", "veto", "settle_batch", "settle_fixed", "release", "extend"]),
 "C08": dict(fp=[("auction.status", None), ("result", {"BID", "MOD", "CAN"})],
             tags=["open", "settle_batch", "settle_fixed", "finish_vesting", "cancel_ok", "cancel_rej", "extend", "create_fixed_ok", "create_batch_ok"]),
 "C09": dict(fp=[("vqueue", None), ("transfers", BLOCKS), ("bal.escrow", BLOCKS)],
             tags=["settle_with_schedule", "settle_multi_schedule", "settle_no_schedule", "release", "finish_vesting"]),
 "C10": dict(fp=[("allowed", None), ("result", {"ADDMSG", "BID"})],
             tags=["addmsg_rej", "addmsg_ok", "bid_fixed_ok", "bid_worth_ok", "bid_many_ok", "bid_fixed_rej", "bid_worth_rej", "bid_many_rej", "apiadd_ok"]),
 "C11": dict(fp=[("bid.terms", None), ("result", {"MOD"}), ("transfers", {"MOD"})],
             tags=["mod_ok", "mod_rej"]),
 "C12": dict(fp=[("result", {"CAN"}), ("auction.status", {"CAN"}), ("auction.remaining", {"CAN"}), ("transfers", {"CAN"})],
             tags=["cancel_ok", "cancel_rej"]),
 "C13": dict(fp=[("auction.end_times", None), ("auction.status", BLOCKS), ("matched_len", None)],
             tags=["extend", "settle_after_extension", "settle_batch"]),
 "C15": dict(fp=[("genesis", None), ("*", {"GENESIS"})],
             tags=["genesis_genok", "genesis_with_bids", "genesis_mid_extension"]),
 "C16": dict(fp=[("bid.flag", None), ("auction.matched_price", None), ("vqueue", None), ("matched_len", None), ("query", None)],
             tags=["settle_batch_sold", "settle_after_extension", "settle_fixed_2bids", "release", "query"]),
 "C17": dict(fp=[("hooks", None), ("result", None)],
             tags=["hook_called", "hook_multi_listener", "veto"]),
 "C18": dict(fp=[("result", {"CFA", "CBA", "CAN", "BID", "MOD", "ADDMSG", "PARAMS"}), ("*rej", None)],
             tags=["bid_fixed_rej", "bid_worth_rej", "bid_many_rej", "mod_rej", "cancel_rej", "create_fixed_rej", "create_batch_rej", "params_rej", "addmsg_rej",
                   "bid_fixed_ok", "bid_worth_ok", "bid_many_ok", "mod_ok", "cancel_ok", "create_fixed_ok", "create_batch_ok", "params_ok"]),
 "C19": dict(fp=[("auction.terms", None), ("seq", None), ("bid.terms", None), ("allowed", None), ("vqueue", None), ("bal.escrow", None),
                 ("result", {"BID", "MOD"})],
             tags=["two_open_auctions", "indep_probe"]),
}
PROPS["C14"] = dict(fp=[("transfers", BLOCKS), ("hooks", BLOCKS)], special="c14",
                    tags=["settle_batch_2bids", "settle_fixed_2bids", "settle_batch_sold", "release", "extend"])
SPECIAL = {}
TRANSLATORS = [("mapcensus", "MapLoops.v"), ("switchscan", "BuildSwitch.v"), ("clitables", "CliTables.v"), ("consts", "Consts.v")]
GENERATED = [t[1] for t in TRANSLATORS]

def in_footprint(prop, m):
    kind = (m.get("op", "").split() + ["", ""])[1]
    proj = m.get("proj", "")
    for pre, kinds in PROPS[prop]["fp"]:
        if kinds is not None and kind not in kinds:
            continue
        for p in proj.split("+"):
            if pre == "*" or p.startswith(pre):
                return True
            if pre == "*rej" and "impl=[rej" in m.get("_raw", ""):
                return True
    return False

TRUSTED = [
 "Coq 8.16.1 kernel (coqc); vm_compute used in Examples and finite table checks; no native_compute",
 "hand-written Gallina model coq/{Dec,Types,Bank,Match,Step,Genesis,Model}.v of x/fundraising (tied to /repo by the one-step correspondence check on sampled histories, not by proof)",
 "extraction (ExtrOcamlBasic only; Z/N/positive/nat stay Coq datatypes; no Extract Constant), OCaml 4.13.1, the OCaml glue ocaml/*.ml",
 "Go harness harness/*.go: state dump, CacheContext emulation of a transaction, recording BankKeeper/DistrKeeper wrappers, address/denom naming",
 "modelled rather than verified: x/bank and x/distribution beyond balance arithmetic and the sufficient-funds check, the KV store and protobuf encoding, bech32/address derivation, ante handler and signatures, gas, sort.Slice determinism, the 256/315-bit overflow panics of math.Int/LegacyDec (unbounded Z in the model)",
]

def count_relevant(R, prop):
    """histories / steps that exercise the property, and distinct tag-sets"""
    tags = set(PROPS[prop]["tags"])
    n_steps = 0
    distinct = set()
    hists = set()
    for key, steps in R["tags"].items():
        seq = []
        for s in steps:
            ts = [t for t in s.split(",") if t in tags]
            if ts:
                n_steps += 1
                seq.append("+".join(ts))
        if seq:
            hists.add(key)
            distinct.add(tuple(seq))
    return n_steps, len(distinct), len(hists)

def samples_from(R, prop, k=3):
    out = []
    tags = set(PROPS[prop]["tags"])
    for key, steps in sorted(R["tags"].items()):
        for i, s in enumerate(steps):
            ts = [t for t in s.split(",") if t in tags]
            if ts:
                shard, hist = key.split("/")
                logf = os.path.join(R["outdir"], shard + ".log")
                if os.path.exists(logf):
                    ops = [l for l in history_ops(logf, hist, i) if not l.startswith("#")]
                    out.append(dict(history=hist, shard=shard, step=i, exercised=ts, ops=ops[-6:]))
                break
        if len(out) >= k:
            break
    return out

def write_evidence(prop, tier, seed, t0, R, C, violations, note=""):
    cs = C["props"].get(prop, dict(ok=False, theorems=[], closed=0, axioms=[], error="no theorem file"))
    n_steps, distinct, hists = count_relevant(R, prop) if R else (0, 0, 0)
    s = R["summary"] if R else {}
    ev = dict(
        property_id=prop, tier=tier, seed=seed, level="proof",
        coverage=dict(
            obligations=max(1, len(cs.get("all_theorems", cs["theorems"]))),
            discharged=len(cs["theorems"]),
            theorems=cs["theorems"],
            theorem_files=cs.get("files", []),
            print_assumptions=("Closed under the global context x%d" % cs["closed"]) if not cs["axioms"] else ("Axioms: " + ", ".join(cs["axioms"])),
            checker_cmd="cd /verif/coq && coq_makefile -f _CoqProject -o Makefile && make -j16   (full .vo build; Properties/%s.v holds the statements, each closed by `exact` and followed by Print Assumptions)" % prop,
            trusted_base=TRUSTED,
            coqchk=(dict(rc=C["coqchk"]["rc"], modules=C["coqchk"]["modules"], seconds=C["coqchk"]["seconds"], axioms=C["coqchk"]["axioms"] or "none") if C.get("coqchk") else "thorough tier only"),
            implementation_code_executed=(C["implcov"] if C.get("implcov") else "thorough tier only"),
            traces_validated_against_impl=s.get("histories", 0),
            evaluations=s.get("steps", 0),
            steps_compared_model_vs_impl=s.get("steps_compared", 0),
            full_application_path=dict(
                histories=s.get("fullapp_histories", 0), operations=s.get("fullapp_steps", 0), signed_transactions=s.get("fullapp_transactions", 0),
                accepted=s.get("fullapp_accepted", 0), foreign_signatures_refused=s.get("fullapp_foreign_signatures", 0), blocks=s.get("fullapp_blocks", 0), application_exports_compared=s.get("fullapp_app_exports", 0),
                what="the same generated histories executed on the harness shortcut (ValidateBasic + msg server on a CacheContext, BeginBlocker called directly) and through the application (signed single-message transactions via FinalizeBlock/Commit: ante handler, signature check against the declared signer, message router, module manager BeginBlock); result class, complete module state and user/escrow balances compared after every operation; at the end of every history and at random points in it the application-level export (app/export.go, module manager, AppModule.ExportGenesis) is compared with the module-level export and passed to the module's ValidateGenesis; a difference is a correspondence mismatch"),
            correspondence_mismatches=s.get("mismatches", 0),
            checker_failures_on_impl=s.get("checkfails", 0),
            relevant_steps=n_steps,
            distinct_nontrivial=distinct,
            histories_exercising_property=hists,
            rule="histories are generated by harness/gen.go from VERIF_SEED (profiles fixed/batch/multi/hooks/genesis/fault/malformed/crowd/extreme/heavy) after the corpus; every operation is executed on the real keeper (in every second shard after a simulation of the same message on a discarded branch of the state), replayed on the extracted model from the implementation's own pre-state, and judged by the extracted checker of this property. A step is relevant when it carries one of the tags %s; distinct_nontrivial counts distinct per-history sequences of such tag sets." % PROPS[prop]["tags"],
            op_histogram={k[3:]: v for k, v in s.items() if k.startswith("op.")},
            tag_histogram={k[3:]: v for k, v in s.items() if k.startswith("nt.")},
            samples=samples_from(R, prop) if R else [],
            forbidden_constructs_found=C.get("forbidden", []),
            note=note,
        ),
        assumptions=TRUSTED,
        wall_s=round(time.time() - t0, 1),
        violations=violations,
    )
    os.makedirs(os.path.join(VERIF, "evidence"), exist_ok=True)
    json.dump(ev, open(os.path.join(VERIF, "evidence", prop + ".json"), "w"), indent=1)

def verdict(prop, tier, seed, t0, R, C, results, write_replay, write_broken, known, known_match):
    for m in R["mismatches"]:
        m["_raw"] = "impl=[%s" % m.get("impl", "")
    def split_known(checks):
        unknown, hits = [], []
        for c in checks:
            if c.get("prop") != prop:
                continue
            e = next((e for e in known if known_match(e, prop, c)), None)
            (hits if e else unknown).append((c, e))
        return unknown, hits
    unknown, hits = split_known(R["checks"])
    seen = set()
    for c, e in hits:
        if e["what"] not in seen:
            seen.add(e["what"])
            print("KNOWN-FINDING: property=%s %s" % (prop, e["what"]))
    if R.get("errors"):
        path = write_broken(prop, ["harness/driver run failed: " + "; ".join(R["errors"])])
        write_evidence(prop, tier, seed, t0, R, C, 1, note="run failed")
        print("VIOLATION property=%s replay=%s no-failing-input-found" % (prop, path))
        return 1
    if unknown:
        c = min((c for c, _ in unknown), key=lambda c: int(c.get("step", 0)))
        path = write_replay(prop, "checker", "checker %s fails on the implementation's own transition" % c.get("checker"), R, c)
        write_evidence(prop, tier, seed, t0, R, C, len(unknown))
        print("VIOLATION property=%s replay=%s" % (prop, path))
        return 1
    broken = []
    cs = C["props"].get(prop)
    if cs is None or not cs["ok"]:
        broken.append("theorem file coq/Properties/%s.v no longer checks: %s" % (prop, (cs or {}).get("error", "missing")))
    if C.get("forbidden"):
        broken.append("forbidden constructs in the development: %s" % C["forbidden"][:3])
    if C.get("coqchk") and (C["coqchk"]["rc"] != 0 or C["coqchk"]["axioms"]):
        broken.append("coqchk does not accept the compiled development, or it relies on axioms: rc=%s axioms=%s %s" % (C["coqchk"]["rc"], C["coqchk"]["axioms"], C["coqchk"]["tail"][-300:]))
    def known_mismatch(m):
        text = "%s %s" % (m.get("op", ""), m.get("impl", ""))
        return any(e.get("status") == "open" and e.get("mismatch_regex") and re.search(e["mismatch_regex"], text) for e in known)
    mm = [m for m in R["mismatches"] if in_footprint(prop, m) and not known_mismatch(m)]
    if mm:
        m0 = mm[0]
        broken.append("correspondence: projection %s of step %s of history %s (%s): model=[%s] impl=[%s]" %
                      (m0.get("proj"), m0.get("step"), m0.get("hist"), m0.get("op"), m0.get("model"), m0.get("impl")))
    if not broken:
        write_evidence(prop, tier, seed, t0, R, C, 0)
        return 0
    # search for a failing input: more histories, judged by the checker of this property
    log("%s: %s -- searching for a failing input" % (prop, broken[0][:160]))
    R2 = results(tier, seed, True)
    unknown2, _ = split_known(R2["checks"])
    if unknown2:
        c = min((c for c, _ in unknown2), key=lambda c: int(c.get("step", 0)))
        path = write_replay(prop, "checker", "checker %s fails on the implementation's own transition (found by the extended search after: %s)" % (c.get("checker"), broken[0][:200]), R2, c)
        write_evidence(prop, tier, seed, t0, R, C, len(unknown2))
        print("VIOLATION property=%s replay=%s" % (prop, path))
        return 1
    if mm:
        path = write_replay(prop, "no-failing-input-found", "; ".join(broken), R, mm[0])
    else:
        path = write_broken(prop, broken)
    write_evidence(prop, tier, seed, t0, R, C, 1, note="no failing input found; no longer checks: " + "; ".join(broken)[:500])
    print("VIOLATION property=%s replay=%s no-failing-input-found" % (prop, path))
    return 1


# ---------------------------------------------------------------- C14: runtime determinism
def det_shard(args):
    idx, first, n, ops, seed, outdir, profile = args
    logf = os.path.join(outdir, "det%02d.log" % idx)
    cmd = "%s -n %d -ops %d -seed %d -first %d -det 3 -profile %s -out %s" % (os.path.join(BUILD, "harness"), n, ops, seed, first, profile, logf)
    rc, out = sh("timeout 3000 " + cmd + " > /dev/null 2>&1", cwd=BUILD)
    return idx, rc, logf

def c14_runtime(tier, seed):
    """every history is executed three times in one process and (shard 0..3) again in a second process, which also
    executes every message first on a discarded branch of the state;
    the complete logs (results, ordered transfers, hook calls, event-stream hashes, full state dumps) must be identical"""
    from multiprocessing import Pool
    key = (repo_hash(), verif_hash(), tier, seed)
    cp = os.path.join(BUILD, "cache", "det-" + "-".join(str(k) for k in key) + ".json")
    if os.path.exists(cp):
        return json.load(open(cp))
    outdir = os.path.join(BUILD, "runs", "det-" + "-".join(str(k) for k in key))
    os.makedirs(outdir, exist_ok=True)
    per = 8 if tier == "quick" else 100
    profs = ["crowd", "heavy", "multi", "heavy"]
    jobs = [(i, 500000 + i * per, per, 60, seed, outdir, profs[i % 4]) for i in range(NPROC)]
    t = time.time()
    with Pool(NPROC) as p:
        res = p.map(det_shard, jobs)
    nondet, errors, settlements, hists, wiring = [], [], 0, 0, []
    for idx, rc, logf in res:
        if rc != 0:
            errors.append("harness -det failed on shard %d rc=%d" % (idx, rc)); continue
        for l in open(logf, errors="replace"):
            if l.startswith("NONDET"):
                d = parse_kv_line(l); d["log"] = logf; nondet.append(d)
            elif l.startswith("WIRING"):
                d = parse_kv_line(l)
                wiring.append(d)
                if d.get("distinct") != "1" or "error" in d:
                    nondet.append(dict(hist="?", run="wiring", step="?", op="module.InvokeSetHooks with listeners of six modules, then one hook fired; 40 fresh keepers",
                                       first=d.get("first", ""), other=d.get("other", d.get("error", "")), log=logf))
            elif l.startswith("HIST"):
                hists += 1
            elif l.startswith("X es") and " u" in l:
                settlements += 1
    # second process for the first four shards
    cross = 0
    for idx, first, n, ops, sd, od, prof in jobs[:4]:
        logf2 = os.path.join(outdir, "det%02d.second.log" % idx)
        # the second process also executes every message first on a discarded branch of the state (CheckTx / gas
        # estimation on a node): nothing of that may show
        sh("timeout 3000 %s -sim -n %d -ops %d -seed %d -first %d -profile %s -out %s > /dev/null 2>&1" % (
            os.path.join(BUILD, "harness"), n, ops, sd, first, prof, logf2), cwd=BUILD)
        a = [l for l in open(os.path.join(outdir, "det%02d.log" % idx), errors="replace") if not l.startswith("NONDET") and not l.startswith("WIRING")]
        b = list(open(logf2, errors="replace"))
        cross += 1
        if a != b:
            i = next((k for k in range(min(len(a), len(b))) if a[k] != b[k]), min(len(a), len(b)))
            hist, step, lastop = "?", -1, ""
            for l in a[:i + 1]:
                if l.startswith("HIST"):
                    hist, step = parse_kv_line(l).get("id", "?"), -1
                elif l.startswith("OP "):
                    step += 1; lastop = l.strip()
            nondet.append(dict(hist=hist, run="second-process-with-simulations", step=str(max(step, 0)), op=lastop[3:], first=a[i].strip() if i < len(a) else "", other=b[i].strip() if i < len(b) else "",
                               log=os.path.join(outdir, "det%02d.log" % idx)))
    log("determinism: %d histories x3 in-process, %d shards re-run in a second process, %d differences, %.1fs" % (hists, cross, len(nondet), time.time() - t))
    R = dict(nondet=nondet, errors=errors, histories=hists, bidder_transfers=settlements, cross=cross, outdir=outdir,
             wiring_probes=len(wiring), wiring_order=(wiring[0].get("first") if wiring else ""))
    json.dump(R, open(cp, "w"))
    return R

def special_c14(prop, tier, seed, t0, chk):
    R = chk.results(tier, seed)
    C = chk.coq_status()
    D = c14_runtime(tier, seed)
    if D["nondet"] or D["errors"]:
        os.makedirs(os.path.join(BUILD, "replay"), exist_ok=True)
        path = os.path.join(BUILD, "replay", "C14-nondeterminism.json")
        item = (D["nondet"] or [{}])[0]
        ops = []
        if item.get("log") and item.get("hist", "?") != "?":
            ops = history_ops(item["log"], item["hist"], int(item.get("step", 0)))
        json.dump(dict(property="C14", kind="runtime", what="re-executing the same history gave a different log", item=item,
                       errors=D["errors"], history=ops), open(path, "w"), indent=1)
        write_evidence(prop, tier, seed, t0, R, C, max(1, len(D["nondet"])), note="runtime nondeterminism: %s" % str(item)[:300])
        print("VIOLATION property=C14 replay=%s" % path)
        return 1
    # a read of the wall clock outside telemetry (the census theorem C14_no_wall_clock is then broken): the histories
    # that lie in the past of this machine are the ones on which such a read can matter - a difference between
    # implementation and model in one of them is the failing input (executed in 2001 the history gave what the model
    # gives; executed now it does not)
    try:
        gen = open(os.path.join(VERIF, "coq", "Generated", "MapLoops.v")).read()
        unsafe_clock = re.findall(r'\("([^"]*)", "([^"]*)", "([^"]*)", "([^"]*)", "other"\)', gen.split("clock_uses")[-1]) if "clock_uses" in gen else []
    except OSError:
        unsafe_clock = []
    if unsafe_clock:
        past = [m for m in R["mismatches"] if m.get("t0") == "1000000000"]
        if past:
            m0 = past[0]
            os.makedirs(os.path.join(BUILD, "replay"), exist_ok=True)
            path = os.path.join(BUILD, "replay", "C14-wall-clock.json")
            logf = os.path.join(R["outdir"], m0.get("shard", "") + ".log")
            ops = history_ops(logf, m0.get("hist", ""), int(m0.get("step", 0))) if os.path.exists(logf) else []
            json.dump(dict(property="C14", kind="wall-clock",
                           what="the module reads the wall clock of the executing machine (%s); this history lies in the past of this machine (first block 2001-09-09) and its last operation does not give what it gave when it was current: %s model=[%s] now=[%s]" % (
                               "; ".join("%s %s.%s calls %s" % u for u in unsafe_clock[:3]), m0.get("proj"), m0.get("model"), m0.get("impl")),
                           item=m0, history=ops), open(path, "w"), indent=1)
            write_evidence(prop, tier, seed, t0, R, C, 1, note="wall-clock dependence: %s" % str(m0)[:300])
            print("VIOLATION property=C14 replay=%s" % path)
            return 1
    rc = verdict(prop, tier, seed, t0, R, C, chk.results, chk.write_replay, chk.write_broken, chk.load_known(), chk.known_match)
    # add the runtime figures to the evidence
    ep = os.path.join(VERIF, "evidence", "C14.json")
    ev = json.load(open(ep))
    ev["coverage"]["runtime_determinism"] = dict(histories_executed_3x_in_process=D["histories"], shards_repeated_in_second_process=D["cross"],
                                                 transfers_to_bidders_compared=D["bidder_transfers"], differences=0,
                                                 listener_wiring=dict(processes=D.get("wiring_probes", 0), registrations_per_process=40, order_observed=D.get("wiring_order", ""),
                                                                      what="module.InvokeSetHooks called with the listeners of six named modules on fresh keepers; the order in which a fired hook reaches them must be the same in every execution"),
                                                 compared="every line of the log: results, ordered bank transfers, ordered hook calls, hash of the ordered event stream, complete state and balance dumps")
    ev["wall_s"] = round(time.time() - t0, 1)
    json.dump(ev, open(ep, "w"), indent=1)
    return rc
SPECIAL["c14"] = special_c14


# ---------------------------------------------------------------- C15: lock-step continuation
def parse_steps(logf, want=None):
    """histories of a harness log as {id: (hist line, [step dict(op, res, xs, hs, st)])}"""
    H, cur, step = {}, None, None
    for l in open(logf, errors="replace"):
        l = l.rstrip("\n")
        if l.startswith("HIST"):
            hid = parse_kv_line(l).get("id")
            cur = (l, []) if (want is None or hid in want) else None
            if cur:
                H[hid] = cur
            step = None
        elif cur is None:
            continue
        elif l.startswith("OP "):
            step = dict(op=l, res="", xs=[], hs=[], st=[]); cur[1].append(step)
        elif step is None:
            continue
        elif l.startswith("RES "):
            step["res"] = l
        elif l.startswith("X "):
            step["xs"].append(l)
        elif l.startswith("H "):
            step["hs"].append(l)
        elif l.startswith("ST ") and step["res"]:
            step["st"].append(l)          # lines after RES: the state after the operation
        elif l == "END" or l.startswith("HEND"):
            if l.startswith("HEND"):
                cur = None
            step = None if l.startswith("HEND") else step
    return H

def c15_lockstep(tier, seed, R):
    """the property's own statement, on the implementation alone: every generated history that contains an accepted
    GENESIS operation (export, validate, wipe the module store, import) is executed again WITHOUT those operations;
    every later operation must give the same result, the same ordered transfers and hook calls and the same complete
    module state and balances as in the original run"""
    key = (repo_hash(), verif_hash(), tier, seed)
    cp = os.path.join(BUILD, "cache", "c15-" + "-".join(str(k) for k in key) + ".json")
    if os.path.exists(cp):
        return json.load(open(cp))
    t = time.time()
    outdir = os.path.join(BUILD, "runs", "c15-" + "-".join(str(k) for k in key))
    os.makedirs(outdir, exist_ok=True)
    cap = 400 if tier == "quick" else 4000
    picked, diffs, errors, compared_steps = [], [], [], 0
    logs = sorted(glob.glob(os.path.join(R["outdir"], "shard*.log")))
    jobs = []
    for logf in logs:
        if len(picked) >= cap:
            break
        if os.path.basename(logf) >= "shard80":      # full-application shards have another format
            continue
        H = parse_steps(logf)
        sel = {}
        for hid, (hl, steps) in H.items():
            if "gen=extreme" in hl or "gen=replay" in hl or "gen=corpus" in hl:
                continue
            if any(st["op"].startswith("OP GENESIS") and st["res"].startswith("RES genok") for st in steps):
                sel[hid] = (hl, steps)
        if not sel:
            continue
        rp = os.path.join(outdir, os.path.basename(logf) + ".nogenesis.hist")
        with open(rp, "w") as f:
            for hid, (hl, steps) in sel.items():
                f.write(hl + "\n")
                for st in steps:
                    if not st["op"].startswith("OP GENESIS"):
                        f.write(st["op"] + "\n")
        picked += list(sel)
        jobs.append((logf, rp, sel))
    from multiprocessing import Pool
    cmds = ["timeout 3000 %s -replay %s -out %s > /dev/null 2>&1" % (os.path.join(BUILD, "harness"), rp, rp + ".log") for _, rp, _ in jobs]
    with Pool(NPROC) as pool:
        rcs = pool.map(os.system, cmds)
    for (logf, rp, sel), rc in zip(jobs, rcs):
        if rc != 0:
            errors.append("harness -replay failed on %s rc=%s" % (rp, rc)); continue
        # replayed histories come back in file order with ids 0..; match them by order
        G = parse_steps(rp + ".log")
        got = [G[k] for k in sorted(G, key=lambda x: int(x))]
        for (hid, (hl, steps)), (_, rsteps) in zip(sel.items(), got):
            orig = [st for st in steps if not st["op"].startswith("OP GENESIS")]
            for i, (a, b) in enumerate(zip(orig, rsteps)):
                compared_steps += 1
                what = None
                if a["op"] != b["op"]:
                    what = ("op", a["op"], b["op"])
                elif a["res"].split()[:2] != b["res"].split()[:2]:
                    what = ("result", a["res"], b["res"])
                elif a["xs"] != b["xs"]:
                    what = ("transfers", "; ".join(a["xs"]), "; ".join(b["xs"]))
                elif a["hs"] != b["hs"]:
                    what = ("hooks", "; ".join(a["hs"]), "; ".join(b["hs"]))
                elif sorted(a["st"]) != sorted(b["st"]):
                    da = sorted(set(a["st"]) - set(b["st"])); db = sorted(set(b["st"]) - set(a["st"]))
                    what = ("state", "; ".join(da[:4]), "; ".join(db[:4]))
                if what:
                    ops = [st["op"] for st in steps]
                    # the history up to the diverging operation, GENESIS operations included
                    n, upto = -1, []
                    for st in steps:
                        upto.append(st["op"])
                        if not st["op"].startswith("OP GENESIS"):
                            n += 1
                            if n == i:
                                break
                    diffs.append(dict(hist=hid, shard=os.path.basename(logf), step=i, what=what[0], with_genesis=what[1][:600], without_genesis=what[2][:600],
                                      meta=hl, history=[hl] + upto))
                    break
    D = dict(histories=len(picked), steps_compared=compared_steps, diffs=diffs[:20], ndiffs=len(diffs), errors=errors, seconds=round(time.time() - t, 1))
    log("C15 lock-step: %d histories with a genesis round trip re-executed without it, %d steps compared, %d differences, %.1fs" % (len(picked), compared_steps, len(diffs), time.time() - t))
    json.dump(D, open(cp, "w"))
    return D

def special_c15(prop, tier, seed, t0, chk):
    R = chk.results(tier, seed)
    C = chk.coq_status()
    D = c15_lockstep(tier, seed, R)
    if D["ndiffs"] or D["errors"]:
        os.makedirs(os.path.join(BUILD, "replay"), exist_ok=True)
        path = os.path.join(BUILD, "replay", "C15-lockstep.json")
        item = (D["diffs"] or [{}])[0]
        json.dump(dict(property="C15", kind="lockstep", what="the state re-imported from its own exported genesis does not evolve like the original: after the genesis round trip(s) in this history the last operation gives a different %s than in the same history without them" % item.get("what", "?"),
                       item={k: v for k, v in item.items() if k != "history"}, errors=D["errors"], history=item.get("history", [])), open(path, "w"), indent=1)
        write_evidence(prop, tier, seed, t0, R, C, max(1, D["ndiffs"]), note="lock-step continuation differs: %s" % str({k: v for k, v in item.items() if k != "history"})[:400])
        print("VIOLATION property=C15 replay=%s" % path)
        return 1
    rc = verdict(prop, tier, seed, t0, R, C, chk.results, chk.write_replay, chk.write_broken, chk.load_known(), chk.known_match)
    ep = os.path.join(VERIF, "evidence", "C15.json")
    ev = json.load(open(ep))
    ev["coverage"]["lockstep_continuation"] = dict(histories_with_genesis_round_trip_reexecuted_without_it=D["histories"], steps_compared=D["steps_compared"], differences=0,
        compared="result class, ordered bank transfers, ordered hook calls, complete module state (auctions, bids, allow-lists, instalments, counters, matched counts, parameters) and balances after every operation following a round trip")
    ev["wall_s"] = round(time.time() - t0, 1)
    json.dump(ev, open(ep, "w"), indent=1)
    return rc
SPECIAL["c15"] = special_c15
PROPS["C15"]["special"] = "c15"


# ---------------------------------------------------------------- C20: the built binary
def build_binary():
    out_bin = os.path.join(BUILD, "fundraisingd")
    stamp = os.path.join(BUILD, "fundraisingd.stamp")
    h = repo_hash()
    if os.path.exists(stamp) and open(stamp).read() == h and os.path.exists(out_bin):
        return 0, ""
    t = time.time()
    rc, out = sh("timeout 2400 go build -o %s ./cmd/fundraisingd" % out_bin, cwd=REPO, env=GOENV)
    log("go build ./cmd/fundraisingd rc=%d in %.1fs" % (rc, time.time() - t))
    if rc == 0:
        open(stamp, "w").write(h)
    elif os.path.exists(stamp):
        os.remove(stamp)
    return rc, out

ADDR_RE = re.compile(r"cosmos1[0-9a-z]{38}")
def c20_runtime(tier):
    """runs the binary built from /repo with default settings; returns (failures, commands_run, samples)"""
    # a command that falls back to the operating system's keyring would launch a D-Bus session (and leave a
    # directory under /tmp behind) each time: there is none to talk to in a sandbox
    os.environ["DBUS_SESSION_BUS_ADDRESS"] = "disabled:"
    import tempfile
    fails, ran, samples = [], 0, []
    rc, out = build_binary()
    if rc != 0:
        return [dict(cmd="go build ./cmd/fundraisingd", rc=rc, output=out[-1500:])], 0, []
    B = os.path.join(BUILD, "fundraisingd")
    home = os.path.join(BUILD, "fdhome")
    if os.path.isdir(home):
        shutil.rmtree(home)
    # the user's default home (HOME/.fundraising) holds ANOTHER key named alice and its own client.toml: with --home
    # typed, neither may be used
    fake = os.path.join(BUILD, "fduser")
    shutil.rmtree(fake, ignore_errors=True)
    os.makedirs(fake)
    benv = dict(os.environ, HOME=fake)
    rc0, out0 = sh("timeout 120 %s keys add alice --keyring-backend test" % B, env=benv)
    rc0, out0 = sh("timeout 120 %s keys show alice -a --keyring-backend test" % B, env=benv)
    decoy = (ADDR_RE.findall(out0) or ["?"])[-1]
    sh("timeout 120 %s config set client chain-id decoy-chain" % B, env=benv)
    def set_backend(d):
        f = os.path.join(d, "config", "client.toml")
        if os.path.exists(f):
            t = open(f).read()
            open(f, "w").write(re.sub(r'keyring-backend\s*=\s*"[a-z]*"', 'keyring-backend = "test"', t))
    set_backend(os.path.join(fake, ".fundraising"))
    def run(args, expect_rc=0):
        nonlocal ran
        ran += 1
        rc, out = sh("timeout 120 %s %s%s" % (B, args, "" if args.endswith("--help") else " --home " + home), env=benv)
        if rc != expect_rc:
            fails.append(dict(cmd="fundraisingd " + args, rc=rc, output=out[-1200:]))
        return rc, out
    run("--help")
    run("init verif --chain-id verif-1")
    run("keys add alice --keyring-backend test")
    rc, out = run("keys show alice -a --keyring-backend test")
    alice = (ADDR_RE.findall(out) or ["?"])[-1]
    if alice == decoy:
        fails.append(dict(cmd="fundraisingd keys add alice --home <home>", rc=0, output="the key was stored in (or read from) the default home although --home was typed: %s" % alice))
    expected = {"query": ["get-allowed-bidder", "get-auction", "get-bid", "list-allowed-bidder", "list-auction", "list-bid", "list-vesting-queue", "params"],
                "tx": ["cancel-auction", "create-batch-auction", "create-fixed-price-auction", "modify-bid", "place-bid"]}
    for kind, names in expected.items():
        rc, out = run("%s fundraising --help" % kind)
        listed = re.findall(r"^  ([a-z][a-z0-9-]+)\s", out.split("Available Commands:")[-1].split("Flags:")[0], flags=re.M) if "Available Commands:" in out else []
        for n in names:
            if n not in listed:
                fails.append(dict(cmd="fundraisingd %s fundraising --help" % kind, rc=rc, output="command %s is not listed; listed: %s" % (n, listed)))
            run("%s fundraising %s --help" % (kind, n))
        samples.append(dict(cmd="%s fundraising --help" % kind, commands=listed))
    # what the user types is what is sent: offline-generated transactions, field by field
    T = "--from alice --keyring-backend test --generate-only --offline --account-number 1 --sequence 1"
    cases = [
     ("tx fundraising place-bid 3 batch-worth 500000000000000000 100denomb",
      {"@type": "/fundraising.fundraising.v1.MsgPlaceBid", "auction_id": "3", "bidder": alice, "bid_type": "BID_TYPE_BATCH_WORTH", "price": "0.500000000000000000", "coin": {"denom": "denomb", "amount": "100"}}),
     ("tx fundraising modify-bid 3 7 1500000000000000000 42denoma",
      {"@type": "/fundraising.fundraising.v1.MsgModifyBid", "auction_id": "3", "bidder": alice, "bid_id": "7", "price": "1.500000000000000000", "coin": {"denom": "denoma", "amount": "42"}}),
     ("tx fundraising cancel-auction 9",
      {"@type": "/fundraising.fundraising.v1.MsgCancelAuction", "auctioneer": alice, "auction_id": "9"}),
     ("tx fundraising create-fixed-price-auction 1500000000000000000 1000denoma denomb '{\"release_time\":\"2030-01-01T00:00:00Z\",\"weight\":\"1000000000000000000\"}' 2029-01-01T00:00:00Z 2029-06-01T00:00:00Z",
      {"@type": "/fundraising.fundraising.v1.MsgCreateFixedPriceAuction", "auctioneer": alice, "start_price": "1.500000000000000000", "selling_coin": {"denom": "denoma", "amount": "1000"}, "paying_coin_denom": "denomb",
       "vesting_schedules": [{"release_time": "2030-01-01T00:00:00Z", "weight": "1.000000000000000000"}], "start_time": "2029-01-01T00:00:00Z", "end_time": "2029-06-01T00:00:00Z"}),
     ("tx fundraising create-batch-auction 2000000000000000000 100000000000000000 5000denomc denomd '{\"release_time\":\"2030-01-01T00:00:00Z\",\"weight\":\"1000000000000000000\"}' 3 50000000000000000 2029-01-01T00:00:00Z 2029-06-01T00:00:00Z",
      {"@type": "/fundraising.fundraising.v1.MsgCreateBatchAuction", "auctioneer": alice, "start_price": "2.000000000000000000", "min_bid_price": "0.100000000000000000", "selling_coin": {"denom": "denomc", "amount": "5000"},
       "paying_coin_denom": "denomd", "vesting_schedules": [{"release_time": "2030-01-01T00:00:00Z", "weight": "1.000000000000000000"}], "max_extended_round": 3, "extended_round_rate": "0.050000000000000000",
       "start_time": "2029-01-01T00:00:00Z", "end_time": "2029-06-01T00:00:00Z"}),
    ]
    for args, want in cases:
        rc, out = run(args + " " + T)
        if rc != 0:
            continue
        try:
            js = json.loads(out[out.index("{"):])
            got = js["body"]["messages"][0]
        except Exception as e:
            fails.append(dict(cmd="fundraisingd " + args, rc=rc, output="no transaction JSON: " + out[-600:])); continue
        if got != want:
            fails.append(dict(cmd="fundraisingd " + args, rc=rc, output="typed arguments and generated message differ", expected=want, got=got))
        samples.append(dict(cmd=args, message=got))
    # the settings of the home the user names are the ones in force: the keyring backend comes from that home's
    # client.toml (no --keyring-backend typed), and --from alice is the alice of that home, not the one of the same
    # name in the default home
    set_backend(home)
    ran += 1
    rc, out = sh("timeout 120 %s tx fundraising cancel-auction 9 --from alice --generate-only --offline --account-number 1 --sequence 1 --home %s" % (B, home), env=benv)
    try:
        got = json.loads(out[out.index("{"):])["body"]["messages"][0]
    except Exception:
        got = None
    if rc != 0 or not got or got.get("auctioneer") != alice:
        fails.append(dict(cmd="fundraisingd tx fundraising cancel-auction 9 --from alice --generate-only --home <home>   (keyring backend from <home>/config/client.toml; another key named alice in the default home)",
                          rc=rc, output=out[-600:], expected=dict(auctioneer=alice), got=got, alice_of_the_default_home=decoy))
    # what the user types is what is sent, also when too much is typed: every request field of this module's
    # transactions is a single value, so one argument more than the usage line shows must be refused, not silently
    # dropped or used to overwrite an earlier one
    for args, want in cases:
        words = args.split(" ")
        extra = " ".join(words[:3] + [words[3]] + words[3:])     # the first positional argument typed twice
        ran += 1
        rc, out = sh("timeout 120 %s %s %s --home %s" % (B, extra, T, home), env=benv)
        if rc == 0 and '"messages"' in out:
            try:
                got = json.loads(out[out.index("{"):])["body"]["messages"]
            except Exception:
                got = out[-400:]
            fails.append(dict(cmd="fundraisingd " + extra, rc=rc, output="a surplus positional argument is accepted: the generated transaction cannot contain everything that was typed",
                              typed=words[3:] + [words[3]], got=got))
    # a query command needs a node; without one it must fail with a connection error, not with a binding error
    rc, out = sh("timeout 60 %s query fundraising get-bid 1 2 --node tcp://127.0.0.1:1 --home %s" % (B, home), env=benv); ran += 1
    if "can't find field" in out or "unknown command" in out or "accepts" in out:
        fails.append(dict(cmd="fundraisingd query fundraising get-bid 1 2", rc=rc, output=out[-600:]))
    shutil.rmtree(home, ignore_errors=True)
    ran += c20_live(B, fails, samples)
    return fails, ran, samples

def c20_live(B, fails, samples):
    """a single-node chain started from the binary: transactions sent with the CLI, every query command run against it
    and its answer displayed.  The chain starts from a genesis that already contains auctions, an allow-list entry,
    bids and vesting instalments (harness/cmd/genfixture), because an allow-list entry cannot be created on a default
    build in any other way."""
    import socket, signal
    ran = 0
    home = os.path.join(BUILD, "fdlive")
    shutil.rmtree(home, ignore_errors=True)
    def free_port():
        s = socket.socket(); s.bind(("127.0.0.1", 0)); p = s.getsockname()[1]; s.close(); return p
    rpc, grpc, p2p, pprof = free_port(), free_port(), free_port(), free_port()
    node = "--node tcp://127.0.0.1:%d" % rpc
    def cli(args, what=None, must=(), expect_fail=False, must_not=()):
        nonlocal ran
        ran += 1
        rc, out = sh("timeout 60 %s %s --home %s" % (B, args, home))
        bad = (rc != 0) != expect_fail or any(m not in out for m in must) or any(m in out for m in must_not)
        if bad:
            fails.append(dict(cmd="fundraisingd " + args, rc=rc, output=out[-900:], expected_to_contain=list(must), expected_not_to_contain=list(must_not)))
        elif what:
            samples.append(dict(cmd=args.replace(node, "").strip(), shows=what))
        return rc, out
    cli("init verif --chain-id verif-live")
    cli("keys add alice --keyring-backend test")
    rc, out = cli("keys show alice -a --keyring-backend test")
    alice = (ADDR_RE.findall(out) or ["?"])[-1]
    cli("keys add bob --keyring-backend test")
    rc, out = cli("keys show bob -a --keyring-backend test")
    bob = (ADDR_RE.findall(out) or ["?"])[-1]
    # the fixture genesis of the module
    hdir = os.path.join(VERIF, "harness")
    fx = os.path.join(BUILD, "fixture.json")
    rcf, outf = sh("timeout 900 go build -o %s ./cmd/genfixture && %s %s %s %s" % (os.path.join(BUILD, "genfixture"), os.path.join(BUILD, "genfixture"), REPO, fx, alice + " " + bob), cwd=hdir, env=GOENV)
    if rcf != 0:
        fails.append(dict(cmd="harness/cmd/genfixture", rc=rcf, output=outf[-900:])); return ran
    cli("genesis add-genesis-account %s 1000000000000stake,1000000000denoma,1000000000denomb" % alice)
    cli("genesis add-genesis-account %s 1000000stake,1000denomb" % bob)
    for l in outf.strip().splitlines():
        a, c = l.split()
        cli("genesis add-genesis-account %s %s" % (a, c))
    gp = os.path.join(home, "config", "genesis.json")
    g = json.load(open(gp)); g["app_state"]["fundraising"] = json.load(open(fx)); json.dump(g, open(gp, "w"))
    cli("genesis gentx alice 1000000stake --chain-id verif-live --keyring-backend test")
    cli("genesis collect-gentxs")
    cli("genesis validate")
    cfg = os.path.join(home, "config", "config.toml")
    t = open(cfg).read().replace('timeout_commit = "5s"', 'timeout_commit = "300ms"').replace('pprof_laddr = "localhost:6060"', 'pprof_laddr = "localhost:%d"' % pprof)
    open(cfg, "w").write(t)
    logf = open(os.path.join(BUILD, "fdlive.log"), "w")
    import subprocess as sp
    proc = sp.Popen([B, "start", "--home", home, "--rpc.laddr", "tcp://127.0.0.1:%d" % rpc, "--grpc.address", "127.0.0.1:%d" % grpc,
                     "--p2p.laddr", "tcp://127.0.0.1:%d" % p2p, "--api.enable=false", "--grpc-web.enable=false", "--minimum-gas-prices", "0stake"], stdout=logf, stderr=sp.STDOUT)
    def height():
        rc, out = sh("timeout 10 %s status %s" % (B, node))
        m = re.search(r'"latest_block_height":"(\d+)"', out)
        return int(m.group(1)) if m else 0
    def wait_blocks(n, limit=40):
        h0 = height(); t1 = time.time()
        while time.time() - t1 < limit:
            if proc.poll() is not None: return False
            if height() >= h0 + n and h0 + n > n - 1: return True
            time.sleep(0.3)
        return False
    try:
        t1 = time.time()
        while height() < 2 and time.time() - t1 < 60 and proc.poll() is None:
            time.sleep(0.5)
        if height() < 2:
            fails.append(dict(cmd="fundraisingd start (single node from the fixture genesis)", rc=proc.poll(), output=open(os.path.join(BUILD, "fdlive.log")).read()[-1500:]))
            return ran
        samples.append(dict(cmd="start", shows="single-node chain produces blocks from a genesis with 3 auctions, 3 allow-list entries, 2 bids, 2 instalments"))
        TX = "--from alice --keyring-backend test --chain-id verif-live --gas 600000 -y %s" % node
        # what the node answers can be displayed: every query command
        cli("query fundraising params " + node, "module parameters", must=["auction_creation_fee", "extended_period"])
        cli("query fundraising get-auction 0 " + node, "an open fixed price auction", must=["FixedPriceAuction", "selling_coin", 'amount: "1000"', "AUCTION_STATUS_STARTED", "remaining_selling_coin"])
        cli("query fundraising get-auction 1 " + node, "an open batch auction", must=["BatchAuction", "min_bid_price", "AUCTION_STATUS_STARTED"])
        cli("query fundraising get-auction 2 " + node, "an auction in its vesting period", must=["AUCTION_STATUS_VESTING", "vesting_schedules"])
        cli("query fundraising list-auction " + node, "all auctions", must=["FixedPriceAuction", "BatchAuction"])
        cli("query fundraising get-bid 2 1 " + node, "a matched bid", must=["is_matched: true", 'amount: "80"', "denomb", alice])
        cli("query fundraising list-bid --auction-id 1 " + node, "the bids of one auction", must=['amount: "40"', "BID_TYPE_BATCH_WORTH"])
        cli("query fundraising list-bid --auction-id 1 --bidder %s --is-matched false %s" % (alice, node), "the unmatched bids of one bidder: both filters typed, both applied",
            must=['amount: "40"', alice], must_not=[bob, 'amount: "30"'])
        cli("query fundraising list-bid --auction-id 1 --bidder %s %s" % (bob, node), "the bids of the other bidder", must=['amount: "30"', bob], must_not=[alice])
        cli("query fundraising list-bid --auction-id 1 --is-matched true " + node, "no matched bid in an open batch auction", must_not=['amount: "40"', 'amount: "30"'])
        cli("query fundraising list-bid --auction-id 2 " + node, "the bids of an auction whose bid is matched, no filter typed", must=['amount: "80"', "is_matched: true"])
        cli("query fundraising list-auction --status AUCTION_STATUS_VESTING " + node, "auctions filtered by status", must=["AUCTION_STATUS_VESTING"])
        cli("query fundraising get-allowed-bidder 0 %s %s" % (alice, node), "an allow-list entry", must=['max_bid_amount: "500"', alice])
        cli("query fundraising list-allowed-bidder " + node, "allow-list entries", must=["max_bid_amount"])
        cli("query fundraising list-vesting-queue " + node, "vesting instalments", must=['amount: "60"', "released: true", "paying_coin"])
        cli("query fundraising get-auction 9 " + node, expect_fail=True)
        # what the user types is what is sent, and it takes effect: transactions through the CLI
        cli("tx fundraising place-bid 0 fixed-price 500000000000000000 10denomb " + TX, must=["txhash"])
        wait_blocks(2)
        cli("query fundraising get-bid 0 1 " + node, "the bid just placed through the CLI", must=['amount: "10"', "BID_TYPE_FIXED_PRICE", 'price: "500000000000000000"'])
        cli("query fundraising get-auction 0 " + node, "the remainder after that bid", must=['amount: "980"'])
        cli("tx fundraising modify-bid 1 1 900000000000000000 50denomb " + TX, must=["txhash"])
        wait_blocks(2)
        cli("query fundraising get-bid 1 1 " + node, "the bid just modified through the CLI", must=['amount: "50"', 'price: "900000000000000000"'])
        cli("tx fundraising create-batch-auction 2000000000000000000 100000000000000000 5000denoma denomb '{\"release_time\":\"2032-01-01T00:00:00Z\",\"weight\":\"1000000000000000000\"}' 3 50000000000000000 2030-01-01T00:00:00Z 2030-06-01T00:00:00Z " + TX, must=["txhash"])
        wait_blocks(2)
        cli("query fundraising get-auction 3 " + node, "the auction just created through the CLI", must=["AUCTION_STATUS_STANDBY", 'amount: "5000"', "max_extended_round: 3"])
        cli("tx fundraising cancel-auction 3 " + TX, must=["txhash"])
        wait_blocks(2)
        cli("query fundraising get-auction 3 " + node, "the auction just cancelled through the CLI", must=["AUCTION_STATUS_CANCELLED"])
        if proc.poll() is not None:
            fails.append(dict(cmd="fundraisingd start", rc=proc.poll(), output="the node stopped: " + open(os.path.join(BUILD, "fdlive.log")).read()[-1200:]))
    finally:
        if proc.poll() is None:
            proc.send_signal(signal.SIGTERM)
            try: proc.wait(15)
            except Exception: proc.kill()
        logf.close()
        shutil.rmtree(home, ignore_errors=True)
    return ran

def special_c20(prop, tier, seed, t0, chk):
    C = chk.coq_status()
    cs = C["props"].get("C20", dict(ok=False, theorems=[], error="missing"))
    fails, ran, samples = c20_runtime(tier)
    os.makedirs(os.path.join(BUILD, "replay"), exist_ok=True)
    ev = dict(property_id="C20", tier=tier, seed=seed, level="proof",
              coverage=dict(obligations=max(1, len(cs.get("all_theorems", cs["theorems"]))), discharged=len(cs["theorems"]), theorems=cs["theorems"],
                            print_assumptions="Closed under the global context x%d" % cs.get("closed", 0) if not cs.get("axioms") else "Axioms: %s" % cs["axioms"],
                            checker_cmd="cd /verif/coq && make  (Properties/C20.v over Generated/CliTables.v, regenerated from /repo by harness/cmd/clitables; complete enumeration of the finite command table by vm_compute)",
                            trusted_base=["Coq 8.16.1 kernel, vm_compute", "harness/cmd/clitables (reads AppModule.AutoCLIOptions() and the registered proto descriptors of the linked code)",
                                          "coq/Cli.v: hand transcription of client/v2 autocli's binding rules (flag/builder.go addMessageFlags)",
                                          "the runtime part runs the binary built from /repo; the rest of the application's start-up (other modules, config, ports) is exercised, not proved"],
                            exhaustive=True, evaluations=ran, distinct_nontrivial=len(samples), commands_run=ran, runtime_failures=len(fails),
                            rule="every command the module registers: --help of root, of `query|tx fundraising` and of each sub-command must exit 0 and be listed; each transaction command is run with --generate-only --offline and the generated message compared field by field with the typed arguments; then a single-node chain is started from the binary (genesis fixture with auctions, allow-list, bids, instalments), every query command is run against it and must display the stored objects, and place-bid / modify-bid / create-batch-auction / cancel-auction are sent through the CLI and their effect read back",
                            samples=samples[:40]),
              assumptions=["see trusted_base"], wall_s=round(time.time() - t0, 1), violations=len(fails))
    json.dump(ev, open(os.path.join(VERIF, "evidence", "C20.json"), "w"), indent=1)
    if fails:
        path = os.path.join(BUILD, "replay", "C20-binary.json")
        json.dump(dict(property="C20", kind="runtime", what="the binary built from /repo misbehaves on a module command", failures=fails), open(path, "w"), indent=1)
        print("VIOLATION property=C20 replay=%s" % path)
        return 1
    if not cs["ok"] or C.get("forbidden"):
        path = chk.write_broken("C20", ["theorem file coq/Properties/C20.v no longer checks (the AutoCLI table regenerated from /repo does not bind): " + cs.get("error", "")[:1500]])
        print("VIOLATION property=C20 replay=%s no-failing-input-found" % path)
        return 1
    return 0
SPECIAL["c20"] = special_c20
PROPS["C20"] = dict(fp=[], tags=[], special="c20")
