"""Per-property configuration: correspondence footprints, the tags that make a step relevant,
verdict and evidence."""
import os, json, time, sys, re
from common import *

BLOCKS = {"BLOCK", "FBLOCK"}
# footprint: list of (projection prefix, set of op kinds or None = any)
PROPS = {
 "C01": dict(fp=[("bal.escrow", None), ("vqueue", None), ("auction.status", None), ("bid.terms", None)],
             tags=["settle_batch", "settle_fixed", "cancel_ok", "donation", "release", "mod_ok", "bid_fixed_ok", "bid_worth_ok", "bid_many_ok"]),
 "C02": dict(fp=[("transfers", None), ("bal.", None)],
             tags=["settle_batch", "settle_fixed", "release", "finish_vesting", "cancel_ok", "create_fixed_ok", "create_batch_ok", "bid_fixed_ok", "bid_worth_ok", "bid_many_ok", "mod_ok"]),
 "C03": dict(fp=[("transfers", BLOCKS), ("auction.matched_price", None), ("bal.user", BLOCKS), ("result", BLOCKS)],
             tags=["settle_batch_2prices", "settle_batch_3prices", "settle_batch_nothing_sold", "settle_batch_2bids"]),
 "C04": dict(fp=[("transfers", BLOCKS | {"BID"}), ("bal.user", BLOCKS | {"BID"}), ("auction.remaining", {"BID"})],
             tags=["settle_batch_sold", "bid_fixed_ok"]),
 "C05": dict(fp=[("transfers", BLOCKS), ("allowed", None), ("result", {"BID"}), ("bal.user", BLOCKS)],
             tags=["settle_batch_sold", "settle_fixed_2bids", "bid_fixed_ok", "bid_fixed_rej", "apiupd_ok"]),
 "C06": dict(fp=[("result", {"BID"}), ("auction.remaining", None), ("bid.terms", None)],
             tags=["bid_fixed_ok", "bid_fixed_rej", "settle_fixed_2bids"]),
 "C07": dict(fp=[("result", BLOCKS)],
             tags=["block_blockok", "fault_fired", "veto", "settle_batch", "settle_fixed", "release", "extend"]),
 "C08": dict(fp=[("auction.status", None), ("result", {"BID", "MOD", "CAN"})],
             tags=["open", "settle_batch", "settle_fixed", "finish_vesting", "cancel_ok", "cancel_rej", "extend", "create_fixed_ok", "create_batch_ok"]),
 "C09": dict(fp=[("vqueue", None), ("transfers", BLOCKS), ("bal.escrow", BLOCKS)],
             tags=["settle_with_schedule", "settle_multi_schedule", "settle_no_schedule", "release", "finish_vesting"]),
 "C10": dict(fp=[("allowed", None), ("result", {"ADDMSG", "BID"})],
             tags=["addmsg_rej", "addmsg_ok", "bid_fixed_ok", "bid_worth_ok", "bid_many_ok", "bid_fixed_rej", "bid_worth_rej", "bid_many_rej", "apiadd_ok"]),
 "C11": dict(fp=[("bid.terms", None), ("result", {"MOD"}), ("transfers", {"MOD"})],
             tags=["mod_ok", "mod_rej"]),
 "C12": dict(fp=[("result", {"CAN"}), ("auction.status", {"CAN"}), ("auction.remaining", {"CAN"}), ("transfers", {"CAN"})],
             tags=["cancel_ok", "cancel_rej"]),
 "C13": dict(fp=[("auction.end_times", None), ("auction.status", BLOCKS), ("matched_len", None)],
             tags=["extend", "settle_after_extension", "settle_batch"]),
 "C15": dict(fp=[("genesis", None), ("*", {"GENESIS"})],
             tags=["genesis_genok", "genesis_with_bids", "genesis_mid_extension"]),
 "C16": dict(fp=[("bid.flag", None), ("auction.matched_price", None), ("vqueue", None), ("matched_len", None), ("query", None)],
             tags=["settle_batch_sold", "settle_after_extension", "settle_fixed_2bids", "release", "query"]),
 "C17": dict(fp=[("hooks", None), ("result", None)],
             tags=["hook_called", "hook_multi_listener", "veto"]),
 "C18": dict(fp=[("result", {"CFA", "CBA", "CAN", "BID", "MOD", "ADDMSG", "PARAMS"}), ("*rej", None)],
             tags=["bid_fixed_rej", "bid_worth_rej", "bid_many_rej", "mod_rej", "cancel_rej", "create_fixed_rej", "create_batch_rej", "params_rej", "addmsg_rej",
                   "bid_fixed_ok", "bid_worth_ok", "bid_many_ok", "mod_ok", "cancel_ok", "create_fixed_ok", "create_batch_ok", "params_ok"]),
 "C19": dict(fp=[("auction.terms", None), ("seq", None), ("bid.terms", None), ("allowed", None), ("vqueue", None), ("bal.escrow", None)],
             tags=["two_open_auctions"]),
}
SPECIAL = {}

def in_footprint(prop, m):
    kind = (m.get("op", "").split() + ["", ""])[1]
    proj = m.get("proj", "")
    for pre, kinds in PROPS[prop]["fp"]:
        if kinds is not None and kind not in kinds:
            continue
        for p in proj.split("+"):
            if pre == "*" or p.startswith(pre):
                return True
            if pre == "*rej" and "impl=[rej" in m.get("_raw", ""):
                return True
    return False

TRUSTED = [
 "Coq 8.16.1 kernel (coqc); vm_compute used in Examples and finite table checks; no native_compute",
 "hand-written Gallina model coq/{Dec,Types,Bank,Match,Step,Genesis,Model}.v of x/fundraising (tied to /repo by the one-step correspondence check on sampled histories, not by proof)",
 "extraction (ExtrOcamlBasic only; Z/N/positive/nat stay Coq datatypes; no Extract Constant), OCaml 4.13.1, the OCaml glue ocaml/*.ml",
 "Go harness harness/*.go: state dump, CacheContext emulation of a transaction, recording BankKeeper/DistrKeeper wrappers, address/denom naming",
 "modelled rather than verified: x/bank and x/distribution beyond balance arithmetic and the sufficient-funds check, the KV store and protobuf encoding, bech32/address derivation, ante handler and signatures, gas, sort.Slice determinism, the 256/315-bit overflow panics of math.Int/LegacyDec (unbounded Z in the model)",
]

def count_relevant(R, prop):
    """histories / steps that exercise the property, and distinct tag-sets"""
    tags = set(PROPS[prop]["tags"])
    n_steps = 0
    distinct = set()
    hists = set()
    for key, steps in R["tags"].items():
        seq = []
        for s in steps:
            ts = [t for t in s.split(",") if t in tags]
            if ts:
                n_steps += 1
                seq.append("+".join(ts))
        if seq:
            hists.add(key)
            distinct.add(tuple(seq))
    return n_steps, len(distinct), len(hists)

def samples_from(R, prop, k=3):
    out = []
    tags = set(PROPS[prop]["tags"])
    for key, steps in sorted(R["tags"].items()):
        for i, s in enumerate(steps):
            ts = [t for t in s.split(",") if t in tags]
            if ts:
                shard, hist = key.split("/")
                logf = os.path.join(R["outdir"], shard + ".log")
                if os.path.exists(logf):
                    ops = [l for l in history_ops(logf, hist, i) if not l.startswith("#")]
                    out.append(dict(history=hist, shard=shard, step=i, exercised=ts, ops=ops[-6:]))
                break
        if len(out) >= k:
            break
    return out

def write_evidence(prop, tier, seed, t0, R, C, violations, note=""):
    cs = C["props"].get(prop, dict(ok=False, theorems=[], closed=0, axioms=[], error="no theorem file"))
    n_steps, distinct, hists = count_relevant(R, prop) if R else (0, 0, 0)
    s = R["summary"] if R else {}
    ev = dict(
        property_id=prop, tier=tier, seed=seed, level="proof",
        coverage=dict(
            obligations=max(1, len(cs["theorems"])),
            discharged=(len(cs["theorems"]) if cs["ok"] else 0),
            theorems=cs["theorems"],
            print_assumptions=("Closed under the global context x%d" % cs["closed"]) if not cs["axioms"] else ("Axioms: " + ", ".join(cs["axioms"])),
            checker_cmd="cd /verif/coq && coq_makefile -f _CoqProject -o Makefile && make -j16   (full .vo build; Properties/%s.v holds the statements, each closed by `exact` and followed by Print Assumptions)" % prop,
            trusted_base=TRUSTED,
            traces_validated_against_impl=s.get("histories", 0),
            evaluations=s.get("steps", 0),
            steps_compared_model_vs_impl=s.get("steps_compared", 0),
            correspondence_mismatches=s.get("mismatches", 0),
            checker_failures_on_impl=s.get("checkfails", 0),
            relevant_steps=n_steps,
            distinct_nontrivial=distinct,
            histories_exercising_property=hists,
            rule="histories are generated by harness/gen.go from VERIF_SEED (profiles fixed/batch/multi/hooks/genesis/fault/malformed) after the corpus; every operation is executed on the real keeper, replayed on the extracted model from the implementation's own pre-state, and judged by the extracted checker of this property. A step is relevant when it carries one of the tags %s; distinct_nontrivial counts distinct per-history sequences of such tag sets." % PROPS[prop]["tags"],
            op_histogram={k[3:]: v for k, v in s.items() if k.startswith("op.")},
            tag_histogram={k[3:]: v for k, v in s.items() if k.startswith("nt.")},
            samples=samples_from(R, prop) if R else [],
            forbidden_constructs_found=C.get("forbidden", []),
            note=note,
        ),
        assumptions=TRUSTED,
        wall_s=round(time.time() - t0, 1),
        violations=violations,
    )
    os.makedirs(os.path.join(VERIF, "evidence"), exist_ok=True)
    json.dump(ev, open(os.path.join(VERIF, "evidence", prop + ".json"), "w"), indent=1)

def verdict(prop, tier, seed, t0, R, C, results, write_replay, write_broken, known, known_match):
    for m in R["mismatches"]:
        m["_raw"] = "impl=[%s" % m.get("impl", "")
    def split_known(checks):
        unknown, hits = [], []
        for c in checks:
            if c.get("prop") != prop:
                continue
            e = next((e for e in known if known_match(e, prop, c)), None)
            (hits if e else unknown).append((c, e))
        return unknown, hits
    unknown, hits = split_known(R["checks"])
    seen = set()
    for c, e in hits:
        if e["what"] not in seen:
            seen.add(e["what"])
            print("KNOWN-FINDING: property=%s %s" % (prop, e["what"]))
    if R.get("errors"):
        path = write_broken(prop, ["harness/driver run failed: " + "; ".join(R["errors"])])
        write_evidence(prop, tier, seed, t0, R, C, 1, note="run failed")
        print("VIOLATION property=%s replay=%s no-failing-input-found" % (prop, path))
        return 1
    if unknown:
        c = min((c for c, _ in unknown), key=lambda c: int(c.get("step", 0)))
        path = write_replay(prop, "checker", "checker %s fails on the implementation's own transition" % c.get("checker"), R, c)
        write_evidence(prop, tier, seed, t0, R, C, len(unknown))
        print("VIOLATION property=%s replay=%s" % (prop, path))
        return 1
    broken = []
    cs = C["props"].get(prop)
    if cs is None or not cs["ok"]:
        broken.append("theorem file coq/Properties/%s.v no longer checks: %s" % (prop, (cs or {}).get("error", "missing")))
    if C.get("forbidden"):
        broken.append("forbidden constructs in the development: %s" % C["forbidden"][:3])
    def known_mismatch(m):
        text = "%s %s" % (m.get("op", ""), m.get("impl", ""))
        return any(e.get("status") == "open" and e.get("mismatch_regex") and re.search(e["mismatch_regex"], text) for e in known)
    mm = [m for m in R["mismatches"] if in_footprint(prop, m) and not known_mismatch(m)]
    if mm:
        m0 = mm[0]
        broken.append("correspondence: projection %s of step %s of history %s (%s): model=[%s] impl=[%s]" %
                      (m0.get("proj"), m0.get("step"), m0.get("hist"), m0.get("op"), m0.get("model"), m0.get("impl")))
    if not broken:
        write_evidence(prop, tier, seed, t0, R, C, 0)
        return 0
    # search for a failing input: more histories, judged by the checker of this property
    log("%s: %s -- searching for a failing input" % (prop, broken[0][:160]))
    R2 = results(tier, seed, True)
    unknown2, _ = split_known(R2["checks"])
    if unknown2:
        c = min((c for c, _ in unknown2), key=lambda c: int(c.get("step", 0)))
        path = write_replay(prop, "checker", "checker %s fails on the implementation's own transition (found by the extended search after: %s)" % (c.get("checker"), broken[0][:200]), R2, c)
        write_evidence(prop, tier, seed, t0, R, C, len(unknown2))
        print("VIOLATION property=%s replay=%s" % (prop, path))
        return 1
    if mm:
        path = write_replay(prop, "no-failing-input-found", "; ".join(broken), R, mm[0])
    else:
        path = write_broken(prop, broken)
    write_evidence(prop, tier, seed, t0, R, C, 1, note="no failing input found; no longer checks: " + "; ".join(broken)[:500])
    print("VIOLATION property=%s replay=%s no-failing-input-found" % (prop, path))
    return 1
