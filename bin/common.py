#!/usr/bin/env python3
"""Shared machinery of the checks: build, run histories, collect results (with a cache keyed by the
content of /repo and /verif), verdicts, evidence."""
import hashlib, json, os, re, subprocess, sys, time, shutil, glob

VERIF = os.path.dirname(os.path.dirname(os.path.abspath(__file__)))
REPO = os.environ.get("VERIF_REPO", "/repo")
BUILD = os.path.join(VERIF, "_build")
GOENV = dict(os.environ, GOFLAGS="-mod=mod", GOPROXY="off", GOSUMDB="off", GOTOOLCHAIN="local")
NPROC = 16

def sh(cmd, cwd=None, env=None, timeout=3600, check=False):
    p = subprocess.run(cmd, shell=isinstance(cmd, str), cwd=cwd, env=env, stdout=subprocess.PIPE,
                       stderr=subprocess.STDOUT, timeout=timeout, text=True)
    if check and p.returncode != 0:
        raise RuntimeError("command failed (%d): %s\n%s" % (p.returncode, cmd, p.stdout[-4000:]))
    return p.returncode, p.stdout

def hash_tree(root, subdirs, exts=None):
    h = hashlib.sha256()
    for sd in subdirs:
        p = os.path.join(root, sd)
        if os.path.isfile(p):
            files = [p]
        else:
            files = []
            for d, dirs, fs in os.walk(p):
                dirs[:] = sorted(x for x in dirs if x not in (".git", "_build", "node_modules"))
                for f in sorted(fs):
                    if exts is None or os.path.splitext(f)[1] in exts or f in ("Makefile", "go.mod", "go.sum", "_CoqProject"):
                        files.append(os.path.join(d, f))
        for f in files:
            try:
                with open(f, "rb") as fh:
                    h.update(f.encode()); h.update(b"\0"); h.update(fh.read()); h.update(b"\0")
            except OSError:
                pass
    return h.hexdigest()[:20]

def repo_hash():
    return hash_tree(REPO, ["x", "app", "cmd", "testutil", "api", "proto", "go.mod", "go.sum", "Makefile", "config.yml"],
                     exts={".go", ".proto", ".yml", ".yaml", ".mod", ".sum"})

def verif_hash():
    return hash_tree(VERIF, ["coq", "ocaml", "harness", "bin", "corpus", "known_findings.json"],
                     exts={".v", ".ml", ".go", ".py", ".hist", ".json", ""})

def prune_build():
    """disk space is limited: keep the three newest run directories of each kind and the forty newest cache entries; the
    Go build cache (one copy of the dependency tree per variant of /repo that was ever built) is emptied above 15 GB"""
    runs = os.path.join(BUILD, "runs")
    if os.path.isdir(runs):
        kinds = {}
        for d in os.listdir(runs):
            k = "det" if d.startswith("det-") else "c15" if d.startswith("c15-") else "run"
            kinds.setdefault(k, []).append(os.path.join(runs, d))
        for k, ds in kinds.items():
            ds.sort(key=os.path.getmtime, reverse=True)
            for d in ds[3:]:
                shutil.rmtree(d, ignore_errors=True)
    cache = os.path.join(BUILD, "cache")
    if os.path.isdir(cache):
        fs = sorted((os.path.join(cache, f) for f in os.listdir(cache)), key=os.path.getmtime, reverse=True)
        for f in fs[40:]:
            try: os.remove(f)
            except OSError: pass
    try:
        rc, out = sh("go env GOCACHE", env=GOENV)
        gc = out.strip()
        if gc and os.path.isdir(gc):
            rc, out = sh("du -sm %s" % gc)
            if int(out.split()[0]) > 15000:
                sh("go clean -cache", env=GOENV)
    except Exception:
        pass

def log(msg):
    print("[check] " + msg, file=sys.stderr, flush=True)

# ---------------------------------------------------------------- build
def build_coq():
    """full .vo build of the development (make -k so that one broken property file does not hide the others)"""
    coq = os.path.join(VERIF, "coq")
    t = time.time()
    rc, out = sh("coq_makefile -f _CoqProject -o Makefile > /dev/null && timeout 3000 make -k -j%d 2>&1" % NPROC, cwd=coq)
    os.makedirs(os.path.join(BUILD, "coq"), exist_ok=True)
    with open(os.path.join(BUILD, "coq", "make.log"), "w") as f:
        f.write(out)
    log("coq make rc=%d in %.1fs" % (rc, time.time() - t))
    return rc, out

def build_driver():
    ex = os.path.join(BUILD, "extract")
    os.makedirs(ex, exist_ok=True)
    stamp = os.path.join(ex, ".stamp")
    h = hash_tree(VERIF, ["coq", "ocaml"], exts={".v", ".ml"})
    if os.path.exists(stamp) and open(stamp).read() == h and os.path.exists(os.path.join(BUILD, "driver")):
        return
    t = time.time()
    sh("timeout 600 coqc -Q %s FR %s" % (os.path.join(VERIF, "coq"), os.path.join(VERIF, "coq", "Extract.v")), cwd=ex, check=True)
    for f in glob.glob(os.path.join(VERIF, "ocaml", "*.ml")):
        shutil.copy(f, ex)
    sh("ocamlfind ocamlopt -O2 -package zarith -linkpkg -w -a model.mli model.ml conv.ml driver.ml checks.ml main.ml -o ../driver",
       cwd=ex, check=True)
    open(stamp, "w").write(h)
    log("driver built in %.1fs" % (time.time() - t))

def gen_gomod(hdir):
    src = open(os.path.join(REPO, "go.mod")).read()
    src = re.sub(r"^module .*$", "module verifharness", src, count=1, flags=re.M)
    src += "\nrequire github.com/tendermint/fundraising v0.0.0\nreplace github.com/tendermint/fundraising => %s\n" % REPO
    open(os.path.join(hdir, "go.mod"), "w").write(src)
    shutil.copy(os.path.join(REPO, "go.sum"), os.path.join(hdir, "go.sum"))

def build_harness():
    """the harness is rebuilt from /repo's current working tree whenever that tree (or the harness) changed"""
    hdir = os.path.join(VERIF, "harness")
    os.makedirs(BUILD, exist_ok=True)
    stamp = os.path.join(BUILD, "harness.stamp")
    h = repo_hash() + hash_tree(VERIF, ["harness"], exts={".go"})
    out_bin = os.path.join(BUILD, "harness")
    if os.path.exists(stamp) and open(stamp).read() == h and os.path.exists(out_bin):
        return 0, ""
    gen_gomod(hdir)
    t = time.time()
    rc, out = sh("timeout 1500 go build -o %s ." % out_bin, cwd=hdir, env=GOENV)
    log("harness build rc=%d in %.1fs" % (rc, time.time() - t))
    if rc == 0:
        open(stamp, "w").write(h)
    else:
        if os.path.exists(stamp): os.remove(stamp)
    return rc, out

# ---------------------------------------------------------------- running histories
TIERS = {
    # histories, operations per history; fullapp: histories also executed through the application (signed
    # transactions, FinalizeBlock/Commit) and compared with the shortcut path, see harness/fullapp.go
    "quick": dict(n=1600, ops=50, fullapp=64),
    "thorough": dict(n=4800, ops=60, fullapp=1600),
}

def run_fullapp_shard(args):
    """the full-application path: differences between the shortcut and the application become MISMATCH lines"""
    idx, first, n, ops, seed, outdir = args
    logf = os.path.join(outdir, "shard%02d.log" % idx)
    outf = os.path.join(outdir, "shard%02d.out" % idx)
    rc, out = sh("timeout 3000 %s -fullapp -n %d -ops %d -seed %d -first %d -out %s > /dev/null 2>&1" % (
        os.path.join(BUILD, "harness"), n, ops, seed, first, logf), cwd=BUILD)
    if rc != 0:
        return idx, "harness -fullapp failed rc=%d" % rc
    summ = dict(fullapp_histories=0, fullapp_steps=0, fullapp_transactions=0, fullapp_accepted=0, fullapp_foreign_signatures=0, fullapp_blocks=0, fullapp_app_exports=0, mismatches=0)
    with open(outf, "w") as o:
        for l in open(logf, errors="replace"):
            if l.startswith("FULLCHECK"):
                o.write("CHECK " + l[len("FULLCHECK "):])
                summ["checkfails"] = summ.get("checkfails", 0) + 1
            elif l.startswith("FULLDIFF"):
                o.write("MISMATCH " + l[len("FULLDIFF "):])
                summ["mismatches"] += 1
            elif l.startswith("FULLSUMMARY"):
                d = parse_kv_line(l)
                for k in ("histories", "steps", "transactions", "accepted", "foreign_signatures", "blocks", "app_exports"):
                    summ["fullapp_" + k] += int(d.get(k, 0))
        o.write("SUMMARY " + json.dumps(summ) + "\n")
    return idx, None

def run_shard(args):
    if len(args) == 6:
        return run_fullapp_shard(args)
    idx, first, n, ops, seed, outdir, replay = args
    logf = os.path.join(outdir, "shard%02d.log" % idx)
    outf = os.path.join(outdir, "shard%02d.out" % idx)
    if replay:
        cmd = "%s -replay %s -first %d -out %s" % (os.path.join(BUILD, "harness"), replay, first, logf)
    else:
        # every second shard runs with -sim: each message is first executed on a discarded branch of the state (what a
        # node does in CheckTx and for gas estimation), and now and then a parameter change is simulated that is never
        # executed; none of that may be visible to the operations that follow
        cmd = "%s %s -n %d -ops %d -seed %d -first %d -out %s" % (os.path.join(BUILD, "harness"), "-sim" if idx % 2 == 1 else "", n, ops, seed, first, logf)
    rc, out = sh("timeout 3000 " + cmd + " > /dev/null 2>&1", cwd=BUILD)
    if rc != 0:
        return idx, "harness failed rc=%d" % rc
    rc, out = sh("timeout 3000 %s %s > %s 2>&1" % (os.path.join(BUILD, "driver"), logf, outf), cwd=BUILD)
    if rc != 0:
        return idx, "driver failed rc=%d" % rc
    return idx, None

def corpus_file():
    """all corpus histories concatenated (they run first)"""
    files = sorted(glob.glob(os.path.join(VERIF, "corpus", "*.hist")))
    if not files:
        return None
    p = os.path.join(BUILD, "corpus_all.hist")
    with open(p, "w") as out:
        for f in files:
            out.write("HIST file=%s\n" % os.path.basename(f))
            for l in open(f):
                if l.startswith("OP "):
                    out.write(l)
    return p

def run_histories(tier, seed, outdir, extra=False):
    """runs corpus + generated histories through harness and driver on all cores; returns list of .out files"""
    from multiprocessing import Pool
    os.makedirs(outdir, exist_ok=True)
    cfg = TIERS[tier]
    n = cfg["n"] * (4 if extra else 1)
    per = (n + NPROC - 1) // NPROC
    jobs = []
    cf = corpus_file()
    if cf and not extra:
        jobs.append((99, 100000, 0, 0, seed, outdir, cf))
    for i in range(NPROC):
        jobs.append((i, i * per + (1000000 if extra else 0), per, cfg["ops"], seed + (7777 if extra else 0), outdir, None))
    nf = cfg.get("fullapp", 0) * (2 if extra else 1)
    if nf:
        perf = (nf + 7) // 8
        for i in range(8):
            jobs.append((80 + i, 2000000 + i * perf + (1000000 if extra else 0), perf, 40, seed + (7777 if extra else 0), outdir))
    t = time.time()
    with Pool(NPROC) as p:
        res = p.map(run_shard, jobs)
    errs = [e for _, e in res if e]
    log("%d histories (%s%s) in %.1fs%s" % (n, tier, ", extra search" if extra else "", time.time() - t,
                                             (" ERRORS: " + "; ".join(errs)) if errs else ""))
    return sorted(glob.glob(os.path.join(outdir, "shard*.out"))), errs

LINE_RE = re.compile(r"(\w+)=(\[[^\]]*\]|\S+)")
def parse_kv_line(l):
    d = {}
    for k, v in LINE_RE.findall(l):
        d[k] = v[1:-1] if v.startswith("[") else v
    return d

def collect(outfiles):
    """parse driver outputs"""
    mism, checks, tags = [], [], {}
    summary = {}
    for f in outfiles:
        shard = os.path.basename(f).replace(".out", "")
        for l in open(f, errors="replace"):
            if l.startswith("MISMATCH"):
                d = parse_kv_line(l); d["shard"] = shard; mism.append(d)
            elif l.startswith("CHECK"):
                d = parse_kv_line(l); d["shard"] = shard; checks.append(d)
            elif l.startswith("TAGS"):
                p = l.split()
                key = (shard, p[1][5:])
                tags.setdefault(key, []).append(p[3] if len(p) > 3 else "")
            elif l.startswith("SUMMARY"):
                s = json.loads(l[8:])
                for k, v in s.items():
                    summary[k] = summary.get(k, 0) + v
    return dict(mismatches=mism, checks=checks, tags={"%s/%s" % k: v for k, v in tags.items()}, summary=summary)

def history_ops(shard_log, hist, upto_step):
    """the OP/ORC lines of one history up to and including a step (the replay of a finding)"""
    out, cur, step, active = [], None, -1, False
    for l in open(shard_log, errors="replace"):
        if l.startswith("HIST"):
            active = ("id=%s " % hist) in l + " "
            if active:
                out.append(l.rstrip())
            step = -1
        elif active:
            if l.startswith("OP "):
                step += 1
                if step > upto_step:
                    break
                out.append(l.rstrip())
            elif l.startswith("ORC ") or l.startswith("RES "):
                out.append("# " + l.rstrip())
            elif l.startswith("HEND"):
                break
    return out
